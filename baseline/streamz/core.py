import asyncio
import concurrent.futures
from collections import deque, defaultdict
from datetime import timedelta
from itertools import chain
import functools
import logging
import threading
from time import time
from typing import Any, Callable, Coroutine, Hashable, Tuple, Union, overload
import weakref

import toolz
from tornado import gen
from tornado.locks import Condition
from tornado.ioloop import IOLoop
from tornado.queues import Queue

try:
    from distributed.client import default_client as _dask_default_client
except ImportError:  # pragma: no cover
    _dask_default_client = None

from collections.abc import Iterable

from threading import get_ident as get_thread_identity
from .orderedweakset import OrderedWeakrefSet

no_default = '--no-default--'

_html_update_streams = set()

thread_state = threading.local()

logger = logging.getLogger(__name__)


_io_loops = []


def get_io_loop(asynchronous=None):
    if asynchronous:
        return IOLoop.current()

    if _dask_default_client is not None:
        try:
            client = _dask_default_client()
        except ValueError:
            # No dask client found; continue
            pass
        else:
            return client.loop

    if not _io_loops:
        loop = IOLoop(make_current=False)
        thread = threading.Thread(target=loop.start)
        thread.daemon = True
        thread.start()
        _io_loops.append(loop)

    return _io_loops[-1]


def identity(x):
    return x


class RefCounter:
    """ A counter to track references to data

        This class is used to track how many nodes in the DAG are referencing
        a particular element in the pipeline. When the count reaches zero,
        then parties interested in knowing if data is done being processed are
        notified

        Parameters
        ----------
        initial: int, optional
            The initial value of the reference counter
        cb: callable
            The function to use a callback when the reference count reaches zero
        loop: tornado.ioloop.IOLoop
            The loop on which to create a callback when the reference count
            reaches zero
    """
    def __init__(self, initial=0, cb=None, loop=None):
        self.loop = loop if loop else get_io_loop()
        self.count = initial
        self.cb = cb

    def retain(self, n=1):
        """Retain the reference

        Parameters
        ----------
        n: The number of times to retain the reference
        """
        self.count += n

    def release(self, n=1):
        """Release the reference

        If the reference count is equal to or less than zero, the callback, if
        provided will added to the provided loop or default loop

        Parameters
        ----------
        n: The number of references to release
        """
        self.count -= n
        if self.count <= 0 and self.cb:
            self.loop.add_callback(self.cb)

    def __str__(self):
        return '<RefCounter count={}>'.format(self.count)

    __repr__ = __str__


class APIRegisterMixin(object):

    @classmethod
    def register_api(cls, modifier=identity, attribute_name=None):
        """ Add callable to Stream API

        This allows you to register a new method onto this class.  You can use
        it as a decorator.::

            >>> @Stream.register_api()
            ... class foo(Stream):
            ...     ...

            >>> Stream().foo(...)  # this works now

        It attaches the callable as a normal attribute to the class object.  In
        doing so it respects inheritance (all subclasses of Stream will also
        get the foo attribute).

        By default callables are assumed to be instance methods.  If you like
        you can include modifiers to apply before attaching to the class as in
        the following case where we construct a ``staticmethod``.

            >>> @Stream.register_api(staticmethod)
            ... class foo(Stream):
            ...     ...

            >>> Stream.foo(...)  # Foo operates as a static method

        You can also provide an optional ``attribute_name`` argument to control
        the name of the attribute your callable will be attached as.

            >>> @Stream.register_api(attribute_name="bar")
            ... class foo(Stream):
            ...     ...

            >> Stream().bar(...)  # foo was actually attached as bar
        """
        def _(func):
            @functools.wraps(func)
            def wrapped(*args, **kwargs):
                return func(*args, **kwargs)
            name = attribute_name if attribute_name else func.__name__
            setattr(cls, name, modifier(wrapped))
            return func
        return _

    @classmethod
    def register_plugin_entry_point(cls, entry_point, modifier=identity):
        if hasattr(cls, entry_point.name):
            raise ValueError(
                f"Can't add {entry_point.name} "
                f"to {cls.__name__}: duplicate method name."
            )

        def stub(*args, **kwargs):
            """ Entrypoints-based streamz plugin. Will be loaded on first call. """
            node = entry_point.load()
            if not issubclass(node, Stream):
                raise TypeError(
                    f"Error loading {entry_point.name} "
                    f"{node.__class__.__name__} must be a subclass of Stream"
                )
            if getattr(cls, entry_point.name).__name__ == "stub":
                cls.register_api(
                    modifier=modifier, attribute_name=entry_point.name
                )(node)
            return node(*args, **kwargs)
        cls.register_api(modifier=modifier, attribute_name=entry_point.name)(stub)


class Stream(APIRegisterMixin):
    """ A Stream is an infinite sequence of data.

    Streams subscribe to each other passing and transforming data between them.
    A Stream object listens for updates from upstream, reacts to these updates,
    and then emits more data to flow downstream to all Stream objects that
    subscribe to it.  Downstream Stream objects may connect at any point of a
    Stream graph to get a full view of the data coming off of that point to do
    with as they will.

    Parameters
    ----------
    stream_name: str or None
        This is the name of the stream.
    asynchronous: boolean or None
        Whether or not this stream will be used in asynchronous functions or
        normal Python functions.  Leave as None if you don't know.
        True will cause operations like emit to return awaitable Futures
        False will use an Event loop in another thread (starts it if necessary)
    ensure_io_loop: boolean
        Ensure that some IOLoop will be created.  If asynchronous is None or
        False then this will be in a separate thread, otherwise it will be
        IOLoop.current

    Examples
    --------
    >>> def inc(x):
    ...     return x + 1

    >>> source = Stream()  # Create a stream object
    >>> s = source.map(inc).map(str)  # Subscribe to make new streams
    >>> s.sink(print)  # take an action whenever an element reaches the end

    >>> L = list()
    >>> s.sink(L.append)  # or take multiple actions (streams can branch)

    >>> for i in range(5):
    ...     source.emit(i)  # push data in at the source
    '1'
    '2'
    '3'
    '4'
    '5'
    >>> L  # and the actions happen at the sinks
    ['1', '2', '3', '4', '5']
    """
    _graphviz_shape = 'ellipse'
    _graphviz_style = 'rounded,filled'
    _graphviz_fillcolor = 'white'
    _graphviz_orientation = 0

    str_list = ['func', 'predicate', 'n', 'interval']

    def __init__(self, upstream=None, upstreams=None, stream_name=None,
                 loop=None, asynchronous=None, ensure_io_loop=False):
        self.name = stream_name
        self.downstreams = OrderedWeakrefSet()
        self.current_value = None
        self.current_metadata = None
        if upstreams is not None:
            self.upstreams = list(upstreams)
        elif upstream is not None:
            self.upstreams = [upstream]
        else:
            self.upstreams = []

        self._set_asynchronous(asynchronous)
        self._set_loop(loop)
        if ensure_io_loop and not self.loop and self.asynchronous is None:
            self._set_asynchronous(False)
        if self.loop is None and self.asynchronous is not None:
            self._set_loop(get_io_loop(self.asynchronous))

        for upstream in self.upstreams:
            if upstream:
                upstream.downstreams.add(self)

    def _set_loop(self, loop):
        self.loop = None
        if loop is not None:
            self._inform_loop(loop)
        else:
            for upstream in self.upstreams:
                if upstream and upstream.loop:
                    self.loop = upstream.loop
                    break

    def _inform_loop(self, loop):
        """
        Percolate information about an event loop to the rest of the stream
        """
        if self.loop is not None:
            if self.loop is not loop:
                raise ValueError("Two different event loops active")
        else:
            self.loop = loop
            for upstream in self.upstreams:
                if upstream:
                    upstream._inform_loop(loop)
            for downstream in self.downstreams:
                if downstream:
                    downstream._inform_loop(loop)

    def _set_asynchronous(self, asynchronous):
        self.asynchronous = None
        if asynchronous is not None:
            self._inform_asynchronous(asynchronous)
        else:
            for upstream in self.upstreams:
                if upstream and upstream.asynchronous:
                    self.asynchronous = upstream.asynchronous
                    break

    def _inform_asynchronous(self, asynchronous):
        """
        Percolate information about an event loop to the rest of the stream
        """
        if self.asynchronous is not None:
            if self.asynchronous is not asynchronous:
                raise ValueError("Stream has both asynchronous and synchronous elements")
        else:
            self.asynchronous = asynchronous
            for upstream in self.upstreams:
                if upstream:
                    upstream._inform_asynchronous(asynchronous)
            for downstream in self.downstreams:
                if downstream:
                    downstream._inform_asynchronous(asynchronous)

    def _add_upstream(self, upstream):
        """Add upstream to current upstreams, this method is overridden for
        classes which handle stream specific buffers/caches"""
        self.upstreams.append(upstream)

    def _add_downstream(self, downstream):
        """Add downstream to current downstreams"""
        self.downstreams.add(downstream)

    def _remove_downstream(self, downstream):
        """Remove downstream from current downstreams"""
        self.downstreams.remove(downstream)

    def _remove_upstream(self, upstream):
        """Remove upstream from current upstreams, this method is overridden for
        classes which handle stream specific buffers/caches"""
        self.upstreams.remove(upstream)

    def start(self):
        """ Start any upstream sources """
        for upstream in self.upstreams:
            upstream.start()

    def stop(self):
        """ Stop upstream sources """
        for upstream in self.upstreams:
            upstream.stop()

    def __str__(self):
        s_list = []
        if self.name:
            s_list.append('{}; {}'.format(self.name, self.__class__.__name__))
        else:
            s_list.append(self.__class__.__name__)

        for m in self.str_list:
            s = ''
            at = getattr(self, m, None)
            if at:
                if not callable(at):
                    s = str(at)
                elif hasattr(at, '__name__'):
                    s = getattr(self, m).__name__
                else:
                    s = None
            if s:
                s_list.append('{}={}'.format(m, s))
        if len(s_list) <= 2:
            s_list = [term.split('=')[-1] for term in s_list]

        text = "<"
        text += s_list[0]
        if len(s_list) > 1:
            text += ': '
            text += ', '.join(s_list[1:])
        text += '>'
        return text

    __repr__ = __str__

    def _ipython_display_(self, **kwargs):  # pragma: no cover
        # Since this function is only called by jupyter, this import must succeed
        from IPython.display import HTML, display

        try:
            import ipywidgets
            from IPython.core.interactiveshell import InteractiveShell
            output = ipywidgets.Output(_view_count=0)
        except ImportError:
            if hasattr(self, '_repr_html_'):
                return display(HTML(self._repr_html_()))
            else:
                return display(self.__repr__())
        output_ref = weakref.ref(output)

        def update_cell(val):
            output = output_ref()
            if output is None:
                return
            with output:
                content, *_ = InteractiveShell.instance().display_formatter.format(val)
                output.outputs = ({'output_type': 'display_data',
                      'data': content,
                      'metadata': {}},)

        s = self.map(update_cell)
        _html_update_streams.add(s)

        self.output_ref = output_ref
        s_ref = weakref.ref(s)

        def remove_stream(change):
            output = output_ref()
            if output is None:
                return

            if output._view_count == 0:
                ss = s_ref()
                ss.destroy()
                _html_update_streams.remove(ss)  # trigger gc

        output.observe(remove_stream, '_view_count')

        if hasattr(output, "_repr_mimebundle_"):
            data = output._repr_mimebundle_(**kwargs)
            return display(data, raw=True)
        else:
            return output._ipython_display_(**kwargs)

    def _emit(self, x, metadata=None):
        """
        Push data into the stream at this point

        Parameters
        ----------
        x: any
            an element of data
        metadata: list[dict], optional
            Various types of metadata associated with the data element in `x`.

            ref: RefCounter
            A reference counter used to check when data is done

        """
        self.current_value = x
        self.current_metadata = metadata
        if metadata:
            self._retain_refs(metadata, len(self.downstreams))
        else:
            metadata = []

        result = []
        for downstream in list(self.downstreams):
            r = downstream.update(x, who=self, metadata=metadata)

            if type(r) is list:
                result.extend(r)
            else:
                result.append(r)

            self._release_refs(metadata)

        return [element for element in result if element is not None]

    def emit(self, x, asynchronous=False, metadata=None):
        """ Push data into the stream at this point

        This is typically done only at source Streams but can theoretically be
        done at any point

        Parameters
        ----------
        x: any
            an element of data
        asynchronous:
            emit asynchronously
        metadata: list[dict], optional
            Various types of metadata associated with the data element in `x`.

            ref: RefCounter
            A reference counter used to check when data is done
        """
        ts_async = getattr(thread_state, 'asynchronous', False)
        if self.loop is None or asynchronous or self.asynchronous or ts_async:
            if not ts_async:
                thread_state.asynchronous = True
            try:
                result = self._emit(x, metadata=metadata)
                if self.loop:
                    return gen.convert_yielded(result)
            finally:
                thread_state.asynchronous = ts_async
        else:
            async def _():
                thread_state.asynchronous = True
                try:
                    result = await asyncio.gather(*self._emit(x, metadata=metadata))
                finally:
                    del thread_state.asynchronous
                return result

            sync(self.loop, _)

    def update(self, x, who=None, metadata=None):
        return self._emit(x, metadata=metadata)

    def gather(self):
        """ This is a no-op for core streamz

        This allows gather to be used in both dask and core streams
        """
        return self

    def connect(self, downstream):
        """ Connect this stream to a downstream element.

        Parameters
        ----------
        downstream: Stream
            The downstream stream to connect to
        """
        self._add_downstream(downstream)
        downstream._add_upstream(self)

    def disconnect(self, downstream):
        """ Disconnect this stream to a downstream element.

        Parameters
        ----------
        downstream: Stream
            The downstream stream to disconnect from
        """
        self._remove_downstream(downstream)

        downstream._remove_upstream(self)

    @property
    def upstream(self):
        if len(self.upstreams) > 1:
            raise ValueError("Stream has multiple upstreams")
        elif len(self.upstreams) == 0:
            return None
        else:
            return self.upstreams[0]

    def destroy(self, streams=None):
        """
        Disconnect this stream from any upstream sources
        """
        if streams is None:
            streams = self.upstreams
        for upstream in list(streams):
            upstream._remove_downstream(self)
            self._remove_upstream(upstream)

    def scatter(self, **kwargs):
        from .dask import scatter
        return scatter(self, **kwargs)

    def remove(self, predicate):
        """ Only pass through elements for which the predicate returns False """
        return self.filter(lambda x: not predicate(x))

    @property
    def scan(self):
        return self.accumulate

    @property
    def concat(self):
        return self.flatten

    def sink_to_list(self):
        """ Append all elements of a stream to a list as they come in

        Examples
        --------
        >>> source = Stream()
        >>> L = source.map(lambda x: 10 * x).sink_to_list()
        >>> for i in range(5):
        ...     source.emit(i)
        >>> L
        [0, 10, 20, 30, 40]
        """
        L = []
        self.sink(L.append)
        return L

    def frequencies(self, **kwargs):
        """ Count occurrences of elements """
        def update_frequencies(last, x):
            return toolz.assoc(last, x, last.get(x, 0) + 1)

        return self.scan(update_frequencies, start={}, **kwargs)

    def visualize(self, filename='mystream.png', **kwargs):
        """Render the computation of this object's task graph using graphviz.

        Requires ``graphviz`` and ``networkx`` to be installed.

        Parameters
        ----------
        filename : str, optional
            The name of the file to write to disk.
        kwargs:
            Graph attributes to pass to graphviz like ``rankdir="LR"``
        """
        from .graph import visualize
        return visualize(self, filename, **kwargs)

    def to_dataframe(self, example):
        """ Convert a stream of Pandas dataframes to a DataFrame

        Examples
        --------
        >>> source = Stream()
        >>> sdf = source.to_dataframe()
        >>> L = sdf.groupby(sdf.x).y.mean().stream.sink_to_list()
        >>> source.emit(pd.DataFrame(...))  # doctest: +SKIP
        >>> source.emit(pd.DataFrame(...))  # doctest: +SKIP
        >>> source.emit(pd.DataFrame(...))  # doctest: +SKIP
        """
        from .dataframe import DataFrame
        return DataFrame(stream=self, example=example)

    def to_batch(self, **kwargs):
        """ Convert a stream of lists to a Batch

        All elements of the stream are assumed to be lists or tuples

        Examples
        --------
        >>> source = Stream()
        >>> batches = source.to_batch()
        >>> L = batches.pluck('value').map(inc).sum().stream.sink_to_list()
        >>> source.emit([{'name': 'Alice', 'value': 1},
        ...              {'name': 'Bob', 'value': 2},
        ...              {'name': 'Charlie', 'value': 3}])
        >>> source.emit([{'name': 'Alice', 'value': 4},
        ...              {'name': 'Bob', 'value': 5},
        ...              {'name': 'Charlie', 'value': 6}])
        """
        from .batch import Batch
        return Batch(stream=self, **kwargs)

    def _retain_refs(self, metadata, n=1):
        """ Retain all references in the provided metadata `n` number of times

        Parameters
        ----------
        metadata: list[dict], optional
            Various types of metadata associated with the data element in `x`.

            ref: RefCounter
            A reference counter used to check when data is done
        n: The number of times to retain the provided references

        """
        for m in metadata:
            if 'ref' in m:
                m['ref'].retain(n)

    def _release_refs(self, metadata, n=1):
        """ Release all references in the provided metadata `n` number of times

        Parameters
        ----------
        metadata: list[dict], optional
            Various types of metadata associated with the data element in `x`.

            ref: RefCounter
            A reference counter used to check when data is done
        n: The number of times to retain the provided references

        """
        for m in metadata:
            if 'ref' in m:
                m['ref'].release(n)


@Stream.register_api()
class map(Stream):
    """ Apply a function to every element in the stream

    Parameters
    ----------
    func: callable
    *args :
        The arguments to pass to the function.
    **kwargs:
        Keyword arguments to pass to func

    Examples
    --------
    >>> source = Stream()
    >>> source.map(lambda x: 2*x).sink(print)
    >>> for i in range(5):
    ...     source.emit(i)
    0
    2
    4
    6
    8
    """
    def __init__(self, upstream, func, *args, **kwargs):
        self.func = func
        # this is one of a few stream specific kwargs
        stream_name = kwargs.pop('stream_name', None)
        self.kwargs = kwargs
        self.args = args

        Stream.__init__(self, upstream, stream_name=stream_name)

    def update(self, x, who=None, metadata=None):
        try:
            result = self.func(x, *self.args, **self.kwargs)
        except Exception as e:
            logger.exception(e)
            raise
        else:
            return self._emit(result, metadata=metadata)


@Stream.register_api()
class map_async(Stream):
    """ Apply an async function to every element in the stream, preserving order
    even when evaluating multiple inputs in parallel.

    Parameters
    ----------
    func: async callable
    *args :
        The arguments to pass to the function.
    parallelism:
        The maximum number of parallel Tasks for evaluating func, default value is 1
    stop_on_exception:
         If the mapped func raises an exception, should the stream stop or not. Default value is False.
    **kwargs:
        Keyword arguments to pass to func

    Examples
    --------
    >>> async def mult(x, factor=1):
    ...     return factor*x
    >>> async def run():
    ...     source = Stream(asynchronous=True)
    ...     source.map_async(mult, factor=2).sink(print)
    ...     for i in range(5):
    ...         await source.emit(i)
    >>> asyncio.run(run())
    0
    2
    4
    6
    8
    """
    def __init__(self, upstream, func, *args, parallelism=1, stop_on_exception=False, **kwargs):
        self.func = func
        stream_name = kwargs.pop('stream_name', None)
        self.kwargs = kwargs
        self.args = args
        self.stop_on_exception = stop_on_exception
        self.work_queue = asyncio.Queue(maxsize=parallelism)

        Stream.__init__(self, upstream, stream_name=stream_name, ensure_io_loop=True)
        self.work_task = None

    def _create_work_task(self) -> Tuple[asyncio.Event, asyncio.Task[None]]:
        stop_work = asyncio.Event()
        work_task = self._create_task(self.work_callback(stop_work))
        return stop_work, work_task

    def start(self):
        if self.work_task:
            stop_work, _ = self.work_task
            stop_work.set()
        self.work_task = self._create_work_task()
        super().start()

    def stop(self):
        stop_work, _ = self.work_task
        stop_work.set()
        self.work_task = None
        super().stop()

    def update(self, x, who=None, metadata=None):
        if not self.work_task:
            self.work_task = self._create_work_task()
        self._retain_refs(metadata)
        return self._create_task(self._insert_job(x, metadata))

    @overload
    def _create_task(self, coro: asyncio.Future) -> asyncio.Future:
        ...

    @overload
    def _create_task(self, coro: concurrent.futures.Future) -> concurrent.futures.Future:
        ...

    @overload
    def _create_task(self, coro: Coroutine) -> asyncio.Task:
        ...

    def _create_task(self, coro):
        if gen.is_future(coro):
            return coro
        return self.loop.asyncio_loop.create_task(coro)

    async def work_callback(self, stop_work: asyncio.Event):
        while not stop_work.is_set():
            task, metadata = await self.work_queue.get()
            self.work_queue.task_done()
            try:
                result = await task
            except Exception as e:
                logger.exception(e)
                if self.stop_on_exception:
                    self.stop()
            else:
                results = self._emit(result, metadata=metadata)
                if results:
                    await asyncio.gather(*results)
            self._release_refs(metadata)

    async def _wait_for_work_slot(self):
        while self.work_queue.full():
            await asyncio.sleep(0)

    async def _insert_job(self, x, metadata):
        try:
            await self._wait_for_work_slot()
            coro = self.func(x, *self.args, **self.kwargs)
            task = self._create_task(coro)
            await self.work_queue.put((task, metadata))
        except Exception as e:
            logger.exception(e)
            raise


@Stream.register_api()
class starmap(Stream):
    """ Apply a function to every element in the stream, splayed out

    See ``itertools.starmap``

    Parameters
    ----------
    func: callable
    *args :
        The arguments to pass to the function.
    **kwargs:
        Keyword arguments to pass to func

    Examples
    --------
    >>> source = Stream()
    >>> source.starmap(lambda a, b: a + b).sink(print)
    >>> for i in range(5):
    ...     source.emit((i, i))
    0
    2
    4
    6
    8
    """
    def __init__(self, upstream, func, *args, **kwargs):
        self.func = func
        # this is one of a few stream specific kwargs
        stream_name = kwargs.pop('stream_name', None)
        self.kwargs = kwargs
        self.args = args

        Stream.__init__(self, upstream, stream_name=stream_name)

    def update(self, x, who=None, metadata=None):
        y = x + self.args
        try:
            result = self.func(*y, **self.kwargs)
        except Exception as e:
            logger.exception(e)
            raise
        else:
            return self._emit(result, metadata=metadata)


def _truthy(x):
    return not not x


@Stream.register_api()
class filter(Stream):
    """ Only pass through elements that satisfy the predicate

    Parameters
    ----------
    predicate : function
        The predicate. Should return True or False, where
        True means that the predicate is satisfied.
    *args :
        The arguments to pass to the predicate.
    **kwargs:
        Keyword arguments to pass to predicate

    Examples
    --------
    >>> source = Stream()
    >>> source.filter(lambda x: x % 2 == 0).sink(print)
    >>> for i in range(5):
    ...     source.emit(i)
    0
    2
    4
    """

    def __init__(self, upstream, predicate, *args, **kwargs):
        if predicate is None:
            predicate = _truthy
        self.predicate = predicate
        stream_name = kwargs.pop("stream_name", None)
        self.kwargs = kwargs
        self.args = args

        Stream.__init__(self, upstream, stream_name=stream_name)

    def update(self, x, who=None, metadata=None):
        if self.predicate(x, *self.args, **self.kwargs):
            return self._emit(x, metadata=metadata)


@Stream.register_api()
class accumulate(Stream):
    """ Accumulate results with previous state

    This performs running or cumulative reductions, applying the function
    to the previous total and the new element.  The function should take
    two arguments, the previous accumulated state and the next element and
    it should return a new accumulated state,
    - ``state = func(previous_state, new_value)`` (returns_state=False)
    - ``state, result = func(previous_state, new_value)`` (returns_state=True)

    where the new_state is passed to the next invocation. The state or result
    is emitted downstream for the two cases.

    Parameters
    ----------
    func: callable
    start: object
        Initial value, passed as the value of ``previous_state`` on the first
        invocation. Defaults to the first submitted element
    returns_state: boolean
        If true then func should return both the state and the value to emit
        If false then both values are the same, and func returns one value
    **kwargs:
        Keyword arguments to pass to func

    Examples
    --------
    A running total, producing triangular numbers

    >>> source = Stream()
    >>> source.accumulate(lambda acc, x: acc + x).sink(print)
    >>> for i in range(5):
    ...     source.emit(i)
    0
    1
    3
    6
    10

    A count of number of events (including the current one)

    >>> source = Stream()
    >>> source.accumulate(lambda acc, x: acc + 1, start=0).sink(print)
    >>> for _ in range(5):
    ...     source.emit(0)
    1
    2
    3
    4
    5

    Like the builtin "enumerate".

    >>> source = Stream()
    >>> source.accumulate(lambda acc, x: ((acc[0] + 1, x), (acc[0], x)),
    ...                   start=(0, 0), returns_state=True
    ...                   ).sink(print)
    >>> for i in range(3):
    ...     source.emit(0)
    (0, 0)
    (1, 0)
    (2, 0)
    """
    _graphviz_shape = 'box'

    def __init__(self, upstream, func, start=no_default, returns_state=False,
                 **kwargs):
        self.func = func
        self.kwargs = kwargs
        self.state = start
        self.returns_state = returns_state
        # this is one of a few stream specific kwargs
        stream_name = kwargs.pop('stream_name', None)
        self.with_state = kwargs.pop('with_state', False)
        Stream.__init__(self, upstream, stream_name=stream_name)

    def update(self, x, who=None, metadata=None):
        if self.state is no_default:
            self.state = x
            if self.with_state:
                return self._emit((self.state, x), metadata=metadata)
            else:
                return self._emit(x, metadata=metadata)
        else:
            try:
                result = self.func(self.state, x, **self.kwargs)
            except Exception as e:
                logger.exception(e)
                raise
            if self.returns_state:
                state, result = result
            else:
                state = result
            self.state = state
            if self.with_state:
                return self._emit((self.state, result), metadata=metadata)
            else:
                return self._emit(result, metadata=metadata)


@Stream.register_api()
class slice(Stream):
    """
    Get only some events in a stream by position. Works like list[] syntax.

    Parameters
    ----------
    start : int
        First event to use. If None, start from the beginnning
    end : int
        Last event to use (non-inclusive). If None, continue without stopping.
        Does not support negative indexing.
    step : int
        Pass on every Nth event. If None, pass every one.

    Examples
    --------
    >>> source = Stream()
    >>> source.slice(2, 6, 2).sink(print)
    >>> for i in range(5):
    ...     source.emit(0)
    2
    4
    """

    def __init__(self, upstream, start=None, end=None, step=None, **kwargs):
        self.state = 0
        self.star = start or 0
        self.end = end
        self.step = step or 1
        if any((_ or 0) < 0 for _ in [start, end, step]):
            raise ValueError("Negative indices not supported by slice")
        stream_name = kwargs.pop('stream_name', None)
        Stream.__init__(self, upstream, stream_name=stream_name)
        self._check_end()

    def update(self, x, who=None, metadata=None):
        passes = self.state >= self.star and (self.state - self.star) % self.step == 0
        self.state += 1
        self._check_end()
        if passes:
            return self._emit(x, metadata=metadata)

    def _check_end(self):
        if self.end is not None and self.state >= self.end:
            # we're done
            for upstream in self.upstreams:
                upstream._remove_downstream(self)


@Stream.register_api()
class partition(Stream):
    """ Partition stream into tuples of equal size

    Parameters
    ----------
    n: int
        Maximum partition size
    timeout: int or float, optional
        Number of seconds after which a partition will be emitted,
        even if its size is less than ``n``. If ``None`` (default),
        a partition will be emitted only when its size reaches ``n``.
    key: hashable or callable, optional
        Emit items with the same key together as a separate partition.
        If ``key`` is callable, partition will be identified by ``key(x)``,
        otherwise by ``x[key]``. Defaults to ``None``.

    Examples
    --------
    >>> source = Stream()
    >>> source.partition(3).sink(print)
    >>> for i in range(10):
    ...     source.emit(i)
    (0, 1, 2)
    (3, 4, 5)
    (6, 7, 8)

    >>> source = Stream()
    >>> source.partition(2, key=lambda x: x % 2).sink(print)
    >>> for i in range(4):
    ...     source.emit(i)
    (0, 2)
    (1, 3)

    >>> from time import sleep
    >>> source = Stream()
    >>> source.partition(5, timeout=1).sink(print)
    >>> for i in range(3):
    ...     source.emit(i)
    >>> sleep(1)
    (0, 1, 2)
    """
    _graphviz_shape = 'diamond'

    def __init__(self, upstream, n, timeout=None, key=None, **kwargs):
        self.n = n
        self._timeout = timeout
        self._key = key
        self._buffer = defaultdict(lambda: [])
        self._metadata_buffer = defaultdict(lambda: [])
        self._callbacks = {}
        kwargs["ensure_io_loop"] = True
        Stream.__init__(self, upstream, **kwargs)

    def _get_key(self, x):
        if self._key is None:
            return None
        if callable(self._key):
            return self._key(x)
        return x[self._key]

    @gen.coroutine
    def _flush(self, key):
        result, self._buffer[key] = self._buffer[key], []
        metadata_result, self._metadata_buffer[key] = self._metadata_buffer[key], []
        yield self._emit(tuple(result), list(metadata_result))
        self._release_refs(metadata_result)

    @gen.coroutine
    def update(self, x, who=None, metadata=None):
        self._retain_refs(metadata)
        key = self._get_key(x)
        buffer = self._buffer[key]
        metadata_buffer = self._metadata_buffer[key]
        buffer.append(x)
        if isinstance(metadata, list):
            metadata_buffer.extend(metadata)
        else:
            metadata_buffer.append(metadata)
        if len(buffer) == self.n:
            if self._timeout is not None and self.n > 1:
                self._callbacks[key].cancel()
            yield self._flush(key)
            return
        if len(buffer) == 1 and self._timeout is not None:
            self._callbacks[key] = self.loop.call_later(
                self._timeout, self._flush, key
            )


@Stream.register_api()
class partition_unique(Stream):
    """
    Partition stream elements into groups of equal size with unique keys only.

    Parameters
    ----------
    n: int
        Number of (unique) elements to pass through as a group.
    key: Union[Hashable, Callable[[Any], Hashable]]
        Callable that accepts a stream element and returns a unique, hashable
        representation of the incoming data (``key(x)``), or a hashable that gets
        the corresponding value of a stream element (``x[key]``). For example,
        ``key=lambda x: x["a"]`` would allow only elements with unique ``"a"`` values
        to pass through.

        .. note:: By default, we simply use the element object itself as the key,
            so that object must be hashable. If that's not the case, a non-default
            key must be provided.

    keep: str
        Which element to keep in the case that a unique key is already found
        in the group. If "first", keep element from the first occurrence of a given
        key; if "last", keep element from the most recent occurrence. Note that
        relative ordering of *elements* is preserved in the data passed through,
        and not ordering of *keys*.
    **kwargs

    Examples
    --------
    >>> source = Stream()
    >>> stream = source.partition_unique(n=3, keep="first").sink(print)
    >>> eles = [1, 2, 1, 3, 1, 3, 3, 2]
    >>> for ele in eles:
    ...     source.emit(ele)
    (1, 2, 3)
    (1, 3, 2)

    >>> source = Stream()
    >>> stream = source.partition_unique(n=3, keep="last").sink(print)
    >>> eles = [1, 2, 1, 3, 1, 3, 3, 2]
    >>> for ele in eles:
    ...     source.emit(ele)
    (2, 1, 3)
    (1, 3, 2)

    >>> source = Stream()
    >>> stream = source.partition_unique(n=3, key=lambda x: len(x), keep="last").sink(print)
    >>> eles = ["f", "fo", "f", "foo", "f", "foo", "foo", "fo"]
    >>> for ele in eles:
    ...     source.emit(ele)
    ('fo', 'f', 'foo')
    ('f', 'foo', 'fo')
    """
    _graphviz_shape = "diamond"

    def __init__(
        self,
        upstream,
        n: int,
        key: Union[Hashable, Callable[[Any], Hashable]] = identity,
        keep: str = "first",  # Literal["first", "last"]
        **kwargs
    ):
        self.n = n
        self.key = key
        self.keep = keep
        self._buffer = {}
        self._metadata_buffer = {}
        Stream.__init__(self, upstream, **kwargs)

    def _get_key(self, x):
        if callable(self.key):
            return self.key(x)
        else:
            return x[self.key]

    def update(self, x, who=None, metadata=None):
        y = self._get_key(x)
        if self.keep == "last":
            # remove key if already present so that emitted value
            # will reflect elements' actual relative ordering
            self._buffer.pop(y, None)
            replaced = self._metadata_buffer.pop(y, None)
            if replaced:
                self._release_refs(replaced)
            self._retain_refs(metadata)
            self._buffer[y] = x
            self._metadata_buffer[y] = metadata
        else:  # self.keep == "first"
            if y not in self._buffer:
                self._retain_refs(metadata)
                self._buffer[y] = x
                self._metadata_buffer[y] = metadata
        if len(self._buffer) == self.n:
            result, self._buffer = tuple(self._buffer.values()), {}
            metadata_result, self._metadata_buffer = [m for ml in self._metadata_buffer.values() for m in ml], {}
            ret = self._emit(result, metadata_result)
            self._release_refs(metadata_result)
            return ret
        else:
            return []


@Stream.register_api()
class sliding_window(Stream):
    """ Produce overlapping tuples of size n

    Parameters
    ----------
    return_partial : bool
        If True, yield tuples as soon as any events come in, each tuple being
        smaller or equal to the window size. If False, only start yielding
        tuples once a full window has accrued.

    Examples
    --------
    >>> source = Stream()
    >>> source.sliding_window(3, return_partial=False).sink(print)
    >>> for i in range(8):
    ...     source.emit(i)
    (0, 1, 2)
    (1, 2, 3)
    (2, 3, 4)
    (3, 4, 5)
    (4, 5, 6)
    (5, 6, 7)
    """
    _graphviz_shape = 'diamond'

    def __init__(self, upstream, n, return_partial=True, **kwargs):
        self.n = n
        self._buffer = deque(maxlen=n)
        self.metadata_buffer = deque(maxlen=n)
        self.partial = return_partial
        Stream.__init__(self, upstream, **kwargs)

    def update(self, x, who=None, metadata=None):
        self._retain_refs(metadata)
        self._buffer.append(x)
        if not isinstance(metadata, list):
            metadata = [metadata]
        self.metadata_buffer.append(metadata)
        if self.partial or len(self._buffer) == self.n:
            flat_metadata = [m for ml in self.metadata_buffer for m in ml]
            ret = self._emit(tuple(self._buffer), flat_metadata)
            if len(self.metadata_buffer) == self.n:
                completed = self.metadata_buffer.popleft()
                self._release_refs(completed)
            return ret
        else:
            return []


def convert_interval(interval):
    if isinstance(interval, str):
        import pandas as pd
        interval = pd.Timedelta(interval).total_seconds()
    return interval


@Stream.register_api()
class timed_window(Stream):
    """ Emit a tuple of collected results every interval

    Every ``interval`` seconds this emits a tuple of all of the results
    seen so far.  This can help to batch data coming off of a high-volume
    stream.
    """
    _graphviz_shape = 'octagon'

    def __init__(self, upstream, interval, **kwargs):
        self.interval = convert_interval(interval)
        self._buffer = []
        self.metadata_buffer = []
        self.last = gen.moment

        kwargs["ensure_io_loop"] = True
        Stream.__init__(self, upstream, **kwargs)

        self.loop.add_callback(self.cb)

    def update(self, x, who=None, metadata=None):
        self._buffer.append(x)
        self._retain_refs(metadata)
        self.metadata_buffer.append(metadata)
        return self.last

    @gen.coroutine
    def cb(self):
        while True:
            L, self._buffer = self._buffer, []
            metadata, self.metadata_buffer = self.metadata_buffer, []
            m = [m for ml in metadata for m in ml]
            # one future for the whole emission: update() hands it to every arrival until the next tick
            # and it is awaited here as well (a bare coroutine object could be awaited only once)
            self.last = gen.convert_yielded(self._emit(L, m))
            self._release_refs(m)
            yield self.last
            yield gen.sleep(self.interval)


@Stream.register_api()
class timed_window_unique(Stream):
    """
    Emit a group of elements with unique keys every ``interval`` seconds.

    Parameters
    ----------
    interval: Union[int, str]
        Number of seconds over which to group elements, or a ``pandas``-style
        duration string that can be converted into seconds.
    key: Union[Hashable, Callable[[Any], Hashable]]
        Callable that accepts a stream element and returns a unique, hashable
        representation of the incoming data (``key(x)``), or a hashable that gets
        the corresponding value of a stream element (``x[key]``). For example, both
        ``key=lambda x: x["a"]`` and ``key="a"`` would allow only elements with unique
        ``"a"`` values to pass through.

        .. note:: By default, we simply use the element object itself as the key,
            so that object must be hashable. If that's not the case, a non-default
            key must be provided.

    keep: str
        Which element to keep in the case that a unique key is already found
        in the group. If "first", keep element from the first occurrence of a given
        key; if "last", keep element from the most recent occurrence. Note that
        relative ordering of *elements* is preserved in the data passed through,
        and not ordering of *keys*.

    Examples
    --------
    >>> source = Stream()

    Get unique hashable elements in a window, keeping just the first occurrence:
    >>> stream = source.timed_window_unique(interval=1.0, keep="first").sink(print)
    >>> for ele in [1, 2, 3, 3, 2, 1]:
    ...     source.emit(ele)
    ()
    (1, 2, 3)
    ()

    Get unique hashable elements in a window, keeping just the last occurrence:
    >>> stream = source.timed_window_unique(interval=1.0, keep="last").sink(print)
    >>> for ele in [1, 2, 3, 3, 2, 1]:
    ...     source.emit(ele)
    ()
    (3, 2, 1)
    ()

    Get unique elements in a window by (string) length, keeping just the first occurrence:
    >>> stream = source.timed_window_unique(interval=1.0, key=len, keep="first")
    >>> for ele in ["f", "b", "fo", "ba", "foo", "bar"]:
    ...     source.emit(ele)
    ()
    ('f', 'fo', 'foo')
    ()

    Get unique elements in a window by (string) length, keeping just the last occurrence:
    >>> stream = source.timed_window_unique(interval=1.0, key=len, keep="last")
    >>> for ele in ["f", "b", "fo", "ba", "foo", "bar"]:
    ...     source.emit(ele)
    ()
    ('b', 'ba', 'bar')
    ()
    """
    _graphviz_shape = "octagon"

    def __init__(
        self,
        upstream,
        interval: Union[int, str],
        key: Union[Hashable, Callable[[Any], Hashable]] = identity,
        keep: str = "first",  # Literal["first", "last"]
        **kwargs
    ):
        self.interval = convert_interval(interval)
        self.key = key
        self.keep = keep
        self._buffer = {}
        self._metadata_buffer = {}
        self.last = gen.moment
        kwargs["ensure_io_loop"] = True
        Stream.__init__(self, upstream, **kwargs)
        self.loop.add_callback(self.cb)

    def _get_key(self, x):
        if callable(self.key):
            return self.key(x)
        else:
            return x[self.key]

    def update(self, x, who=None, metadata=None):
        y = self._get_key(x)
        if self.keep == "last":
            # remove key if already present so that emitted value
            # will reflect elements' actual relative ordering
            self._buffer.pop(y, None)
            replaced = self._metadata_buffer.pop(y, None)
            if replaced:
                self._release_refs(replaced)
            self._retain_refs(metadata)
            self._buffer[y] = x
            self._metadata_buffer[y] = metadata
        else:  # self.keep == "first"
            if y not in self._buffer:
                self._retain_refs(metadata)
                self._buffer[y] = x
                self._metadata_buffer[y] = metadata
        return self.last

    @gen.coroutine
    def cb(self):
        while True:
            result, self._buffer = tuple(self._buffer.values()), {}
            metadata_result, self._metadata_buffer = list(self._metadata_buffer.values()), {}
            # TODO: figure out why metadata_result is handled differently here...
            m = [m for ml in metadata_result for m in ml]
            # one future for the whole emission (see timed_window.cb)
            self.last = gen.convert_yielded(self._emit(result, m))
            self._release_refs(m)
            yield self.last
            yield gen.sleep(self.interval)


@Stream.register_api()
class delay(Stream):
    """ Add a time delay to results """
    _graphviz_shape = 'octagon'

    def __init__(self, upstream, interval, **kwargs):
        self.interval = convert_interval(interval)
        self.queue = Queue()

        kwargs["ensure_io_loop"] = True
        Stream.__init__(self, upstream,**kwargs)

        self.loop.add_callback(self.cb)

    @gen.coroutine
    def cb(self):
        while True:
            last = time()
            x, metadata = yield self.queue.get()
            yield self._emit(x, metadata=metadata)
            self._release_refs(metadata)
            duration = self.interval - (time() - last)
            if duration > 0:
                yield gen.sleep(duration)

    def update(self, x, who=None, metadata=None):
        self._retain_refs(metadata)
        return self.queue.put((x, metadata))


@Stream.register_api()
class rate_limit(Stream):
    """ Limit the flow of data

    This stops two elements of streaming through in an interval shorter
    than the provided value.

    Parameters
    ----------
    interval: float
        Time in seconds
    """
    _graphviz_shape = 'octagon'

    def __init__(self, upstream, interval, **kwargs):
        self.interval = convert_interval(interval)
        self.next = 0

        kwargs["ensure_io_loop"] = True
        Stream.__init__(self, upstream, **kwargs)

    @gen.coroutine
    def update(self, x, who=None, metadata=None):
        self._retain_refs(metadata)
        now = time()
        old_next = self.next
        self.next = max(now, self.next) + self.interval
        if now < old_next:
            yield gen.sleep(old_next - now)
        yield self._emit(x, metadata=metadata)
        self._release_refs(metadata)


@Stream.register_api()
class buffer(Stream):
    """ Allow results to pile up at this point in the stream

    This allows results to buffer in place at various points in the stream.
    This can help to smooth flow through the system when backpressure is
    applied.
    """
    _graphviz_shape = 'diamond'

    def __init__(self, upstream, n, **kwargs):
        self.queue = Queue(maxsize=n)

        kwargs["ensure_io_loop"] = True
        Stream.__init__(self, upstream, **kwargs)

        self.loop.add_callback(self.cb)

    def update(self, x, who=None, metadata=None):
        self._retain_refs(metadata)
        return self.queue.put((x, metadata))

    @gen.coroutine
    def cb(self):
        while True:
            x, metadata = yield self.queue.get()
            yield self._emit(x, metadata=metadata)
            self._release_refs(metadata)


@Stream.register_api()
class zip(Stream):
    """ Combine streams together into a stream of tuples

    We emit a new tuple once all streams have produce a new tuple.

    See also
    --------
    combine_latest
    zip_latest
    """
    _graphviz_orientation = 270
    _graphviz_shape = 'triangle'

    def __init__(self, *upstreams, **kwargs):
        self.maxsize = kwargs.pop('maxsize', 10)
        self._condition = None
        self.literals = [(i, val) for i, val in enumerate(upstreams)
                         if not isinstance(val, Stream)]

        self.buffers = {upstream: deque()
                        for upstream in upstreams
                        if isinstance(upstream, Stream)}
        upstreams2 = [upstream for upstream in upstreams if isinstance(upstream, Stream)]

        Stream.__init__(self, upstreams=upstreams2, **kwargs)

    @property
    def condition(self):
        if self._condition is None:
            self._condition = Condition()
        return self._condition

    def _add_upstream(self, upstream):
        # Override method to handle setup of buffer for new stream
        self.buffers[upstream] = deque()
        super(zip, self)._add_upstream(upstream)

    def _remove_upstream(self, upstream):
        # Override method to handle removal of buffer for stream
        self.buffers.pop(upstream)
        super(zip, self)._remove_upstream(upstream)

    def pack_literals(self, tup):
        """ Fill buffers for literals whenever we empty them """
        inp = list(tup)[::-1]
        out = []
        for i, val in self.literals:
            while len(out) < i:
                out.append(inp.pop())
            out.append(val)

        while inp:
            out.append(inp.pop())

        return tuple(out)

    def update(self, x, who=None, metadata=None):
        self._retain_refs(metadata)
        L = self.buffers[who]  # get buffer for stream
        L.append((x, metadata))
        if len(L) == 1 and all(self.buffers.values()):
            vals = [self.buffers[up][0] for up in self.upstreams]
            tup, md = __builtins__['zip'](*vals)
            for buf in self.buffers.values():
                buf.popleft()
            self.condition.notify_all()
            if self.literals:
                tup = self.pack_literals(tup)
            md = [m for ml in md for m in ml]
            ret = self._emit(tup, md)
            self._release_refs(md)
            return ret
        elif len(L) > self.maxsize:
            return self.condition.wait()


@Stream.register_api()
class combine_latest(Stream):
    """ Combine multiple streams together to a stream of tuples

    This will emit a new tuple of all of the most recent elements seen from
    any stream.

    Parameters
    ----------
    emit_on : stream or list of streams or None
        only emit upon update of the streams listed.
        If None, emit on update from any stream

    See Also
    --------
    zip
    """
    _graphviz_orientation = 270
    _graphviz_shape = 'triangle'

    def __init__(self, *upstreams, **kwargs):
        emit_on = kwargs.pop('emit_on', None)
        self._initial_emit_on = emit_on

        self.last = [None for _ in upstreams]
        self.metadata = [None for _ in upstreams]
        self.missing = set(upstreams)
        if emit_on is not None:
            if not isinstance(emit_on, Iterable):
                emit_on = (emit_on, )
            emit_on = tuple(
                upstreams[x] if isinstance(x, int) else x for x in emit_on)
            self.emit_on = emit_on
        else:
            self.emit_on = upstreams
        Stream.__init__(self, upstreams=upstreams, **kwargs)

    def _add_upstream(self, upstream):
        # Override method to handle setup of last and missing for new stream
        self.last.append(None)
        self.metadata.append(None)
        self.missing.update([upstream])
        super(combine_latest, self)._add_upstream(upstream)
        if self._initial_emit_on is None:
            self.emit_on = self.upstreams

    def _remove_upstream(self, upstream):
        # Override method to handle removal of last and missing for stream
        if self.emit_on == upstream:
            raise RuntimeError("Can't remove the ``emit_on`` stream since that"
                               "would cause no data to be emitted. "
                               "Consider adding an ``emit_on`` first by "
                               "running ``node.emit_on=(upstream,)`` to add "
                               "a new ``emit_on`` or running "
                               "``node.emit_on=tuple(node.upstreams)`` to "
                               "emit on all incoming data")
        self.last.pop(self.upstreams.index(upstream))
        self.metadata.pop(self.upstreams.index(upstream))
        self.missing.discard(upstream)
        super(combine_latest, self)._remove_upstream(upstream)
        if self._initial_emit_on is None:
            self.emit_on = self.upstreams

    def update(self, x, who=None, metadata=None):
        self._retain_refs(metadata)
        idx = self.upstreams.index(who)
        if self.metadata[idx]:
            self._release_refs(self.metadata[idx])
        self.metadata[idx] = metadata

        if self.missing and who in self.missing:
            self.missing.remove(who)

        self.last[idx] = x
        if not self.missing and who in self.emit_on:
            tup = tuple(self.last)
            md = [m for ml in self.metadata for m in ml]
            return self._emit(tup, md)


@Stream.register_api()
class flatten(Stream):
    """ Flatten streams of lists or iterables into a stream of elements

    Examples
    --------
    >>> source = Stream()
    >>> source.flatten().sink(print)
    >>> for x in [[1, 2, 3], [4, 5], [6, 7, 7]]:
    ...     source.emit(x)
    1
    2
    3
    4
    5
    6
    7

    See Also
    --------
    partition
    """
    def update(self, x, who=None, metadata=None):
        L = []
        items = chain(x)
        try:
            item = next(items)
        except StopIteration:
            return L
        for item_next in items:
            y = self._emit(item)
            item = item_next
            if type(y) is list:
                L.extend(y)
            else:
                L.append(y)
        y = self._emit(item, metadata=metadata)
        if type(y) is list:
            L.extend(y)
        else:
            L.append(y)
        return L


@Stream.register_api()
class unique(Stream):
    """ Avoid sending through repeated elements

    This deduplicates a stream so that only new elements pass through.
    You can control how much of a history is stored with the ``maxsize=``
    parameter.  For example setting ``maxsize=1`` avoids sending through
    elements when one is repeated right after the other.

    Parameters
    ----------
    maxsize: int or None, optional
        number of stored unique values to check against
    key : function, optional
        Function which returns a representation of the incoming data.
        For example ``key=lambda x: x['a']`` could be used to allow only
        pieces of data with unique ``'a'`` values to pass through.
    hashable : bool, optional
        If True then data is assumed to be hashable, else it is not. This is
        used for determining how to cache the history, if hashable then
        either dicts or LRU caches are used, otherwise a deque is used.
        Defaults to True.

    Examples
    --------
    >>> source = Stream()
    >>> source.unique(maxsize=1).sink(print)
    >>> for x in [1, 1, 2, 2, 2, 1, 3]:
    ...     source.emit(x)
    1
    2
    1
    3
    """
    def __init__(self, upstream, maxsize=None, key=identity, hashable=True,
                 **kwargs):
        self.key = key
        self.maxsize = maxsize
        if hashable:
            self.seen = dict()
            if self.maxsize:
                from zict import LRU
                self.seen = LRU(self.maxsize, self.seen)
        else:
            self.seen = []

        Stream.__init__(self, upstream, **kwargs)

    def update(self, x, who=None, metadata=None):
        y = self.key(x)
        emit = True
        if isinstance(self.seen, list):
            if y in self.seen:
                self.seen.remove(y)
                emit = False
            self.seen.insert(0, y)
            if self.maxsize:
                del self.seen[self.maxsize:]
            if emit:
                return self._emit(x, metadata=metadata)
        else:
            if self.seen.get(y, '~~not_seen~~') == '~~not_seen~~':
                self.seen[y] = 1
                return self._emit(x, metadata=metadata)


@Stream.register_api()
class union(Stream):
    """ Combine multiple streams into one

    Every element from any of the upstreams streams will immediately flow
    into the output stream.  They will not be combined with elements from
    other streams.

    See also
    --------
    Stream.zip
    Stream.combine_latest
    """
    def __init__(self, *upstreams, **kwargs):
        super(union, self).__init__(upstreams=upstreams, **kwargs)

    def update(self, x, who=None, metadata=None):
        return self._emit(x, metadata=metadata)


@Stream.register_api()
class pluck(Stream):
    """ Select elements from elements in the stream.

    Parameters
    ----------
    pluck : object, list
        The element(s) to pick from the incoming element in the stream
        If an instance of list, will pick multiple elements.

    Examples
    --------
    >>> source = Stream()
    >>> source.pluck([0, 3]).sink(print)
    >>> for x in [[1, 2, 3, 4], [4, 5, 6, 7], [8, 9, 10, 11]]:
    ...     source.emit(x)
    (1, 4)
    (4, 7)
    (8, 11)

    >>> source = Stream()
    >>> source.pluck('name').sink(print)
    >>> for x in [{'name': 'Alice', 'x': 123}, {'name': 'Bob', 'x': 456}]:
    ...     source.emit(x)
    'Alice'
    'Bob'
    """
    def __init__(self, upstream, pick, **kwargs):
        self.pick = pick
        super(pluck, self).__init__(upstream, **kwargs)

    def update(self, x, who=None, metadata=None):
        if isinstance(self.pick, list):
            return self._emit(tuple([x[ind] for ind in self.pick]),
                              metadata=metadata)
        else:
            return self._emit(x[self.pick], metadata=metadata)


@Stream.register_api()
class collect(Stream):
    """
    Hold elements in a cache and emit them as a collection when flushed.

    Examples
    --------
    >>> source1 = Stream()
    >>> source2 = Stream()
    >>> collector = collect(source1)
    >>> collector.sink(print)
    >>> source2.sink(collector.flush)
    >>> source1.emit(1)
    >>> source1.emit(2)
    >>> source2.emit('anything')  # flushes collector
    ...
    [1, 2]
    """
    def __init__(self, upstream, cache=None, metadata_cache=None, **kwargs):
        if cache is None:
            cache = deque()
        self.cache = cache

        if metadata_cache is None:
            metadata_cache = deque()
        self.metadata_cache = metadata_cache

        Stream.__init__(self, upstream, **kwargs)

    def update(self, x, who=None, metadata=None):
        self._retain_refs(metadata)
        self.cache.append(x)
        if metadata:
            if isinstance(metadata, list):
                self.metadata_cache.extend(metadata)
            else:
                self.metadata_cache.append(metadata)

    def flush(self, _=None):
        out = tuple(self.cache)
        metadata = list(self.metadata_cache)
        self.cache.clear()
        self.metadata_cache.clear()
        self._emit(out, metadata)
        self._release_refs(metadata)


@Stream.register_api()
class zip_latest(Stream):
    """Combine multiple streams together to a stream of tuples

    The stream which this is called from is lossless. All elements from
    the lossless stream are emitted reguardless of when they came in.
    This will emit a new tuple consisting of an element from the lossless
    stream paired with the latest elements from the other streams.
    Elements are only emitted when an element on the lossless stream are
    received, similar to ``combine_latest`` with the ``emit_on`` flag.

    See Also
    --------
    Stream.combine_latest
    Stream.zip
    """
    def __init__(self, lossless, *upstreams, **kwargs):
        upstreams = (lossless,) + upstreams
        self.last = [None for _ in upstreams]
        self.metadata = [None for _ in upstreams]
        self.missing = set(upstreams)
        self.lossless = lossless
        self.lossless_buffer = deque()
        Stream.__init__(self, upstreams=upstreams, **kwargs)

    def update(self, x, who=None, metadata=None):
        self._retain_refs(metadata)
        idx = self.upstreams.index(who)
        if who is self.lossless:
            self.lossless_buffer.append((x, metadata))
        elif self.metadata[idx]:
            self._release_refs(self.metadata[idx])
        self.metadata[idx] = metadata
        self.last[idx] = x
        if self.missing and who in self.missing:
            self.missing.remove(who)

        if not self.missing:
            L = []
            while self.lossless_buffer:
                self.last[0], self.metadata[0] = self.lossless_buffer.popleft()
                md = [m for ml in self.metadata for m in ml]
                L.extend(self._emit(tuple(self.last), md))
                self._release_refs(self.metadata[0])
            return L


@Stream.register_api()
class latest(Stream):
    """ Drop held-up data and emit the latest result

    This allows you to skip intermediate elements in the stream if there is
    some back pressure causing a slowdown.  Use this when you only care about
    the latest elements, and are willing to lose older data.

    This passes through values without modification otherwise.

    Examples
    --------
    >>> source.map(f).latest().map(g)  # doctest: +SKIP
    """
    _graphviz_shape = 'octagon'

    def __init__(self, upstream, **kwargs):
        self._condition = None
        self.next = []
        self.next_metadata = None

        kwargs["ensure_io_loop"] = True
        Stream.__init__(self, upstream, **kwargs)

        self.loop.add_callback(self.cb)

    @property
    def condition(self):
        if self._condition is None:
            self._condition = Condition()
        return self._condition

    def update(self, x, who=None, metadata=None):
        if self.next_metadata:
            self._release_refs(self.next_metadata)
        self._retain_refs(metadata)

        self.next = [x]
        self.next_metadata = metadata
        self.loop.add_callback(self.condition.notify)

    @gen.coroutine
    def cb(self):
        while True:
            while not self.next:
                # re-check the slot: a notification that found no waiter is not lost
                yield self.condition.wait()
            [x] = self.next
            self.next = []  # consumed: a later notification cannot deliver it again
            yield self._emit(x, self.next_metadata)


def sync(loop, func, *args, **kwargs):
    """
    Run coroutine in loop running in separate thread.
    """
    # This was taken from distrbuted/utils.py

    timeout = kwargs.pop('callback_timeout', None)

    e = threading.Event()
    main_tid = get_thread_identity()
    result = [None]
    error = [False]

    @gen.coroutine
    def f():
        try:
            if main_tid == get_thread_identity():
                raise RuntimeError("sync() called from thread of running loop")
            yield gen.moment
            thread_state.asynchronous = True
            future = func(*args, **kwargs)
            if timeout is not None:
                future = gen.with_timeout(timedelta(seconds=timeout), future)
            result[0] = yield future
        except Exception as exc:
            error[0] = exc
        finally:
            thread_state.asynchronous = False
            e.set()

    loop.add_callback(f)
    if timeout is not None:
        if not e.wait(timeout):
            raise gen.TimeoutError("timed out after %s s." % (timeout,))
    else:
        while not e.is_set():
            e.wait(10)

    if error[0]:
        raise error[0]
    else:
        return result[0]
