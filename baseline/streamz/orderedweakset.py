# -*- coding: utf8 -*-
# This is a copy from Stack Overflow
# https://stackoverflow.com/questions/7828444/indexable-weak-ordered-set-in-python
# Asked by Neil G https://stackoverflow.com/users/99989/neil-g
# Answered/edited by https://stackoverflow.com/users/1001643/raymond-hettinger
import collections
import weakref


class OrderedSet(collections.abc.MutableSet):
    def __init__(self, values=()):
        self._od = collections.OrderedDict().fromkeys(values)

    def __len__(self):
        return len(self._od)

    def __iter__(self):
        return iter(self._od)

    def __contains__(self, value):
        return value in self._od

    def add(self, value):
        self._od[value] = None

    def discard(self, value):
        self._od.pop(value, None)

    def copy(self):
        return OrderedSet(self._od.copy())


class OrderedWeakrefSet(weakref.WeakSet):
    def __init__(self, values=()):
        super(OrderedWeakrefSet, self).__init__()
        self.data = OrderedSet()
        for elem in values:
            self.add(elem)
