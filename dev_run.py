import sys, importlib, time
sys.path.insert(0, '/verif')
from pyvc.repoindex import RepoIndex
mod = importlib.import_module(sys.argv[1])
names = sys.argv[2:]
for C in mod.ALL:
    if names and C.__name__ not in names:
        continue
    c = C()
    files = list(getattr(c, 'files', None) or [c.file, 'streamz/core.py'])
    idx = RepoIndex([f for i, f in enumerate(files) if f not in files[:i]])
    if hasattr(c, 'prepare_index'): c.prepare_index(idx)
    t0 = time.time()
    try:
        res, info = c.verify(idx)
    except Exception as e:
        import traceback; print(traceback.format_exc().strip().splitlines()[-1][:300])
        print('ERROR', C.__name__, e)
        continue
    bad = [r for r in res if r.status != 'proved']
    print('%-28s paths=%d obligations=%d proved=%d  %.2fs  outcomes=%s' % (c.name, info['paths'], len(res), len(res)-len(bad), time.time()-t0, info['outcomes']))
    for r in bad:
        print('   ', r.status.upper(), r.name, 'path', r.path, '|', r.detail[:300].replace('\n', ' '))
        if r.model: print('      input:', str(r.model)[:400])
    slow = sorted(res, key=lambda r: -r.seconds)[:3]
    print('    slowest:', [(r.name.split('/')[-1], r.path, round(r.seconds,2)) for r in slow])
