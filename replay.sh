#!/bin/sh
# ./replay.sh out/replay_<...>.json : re-run the recorded counter-model / failing input on the real code (/repo)
cd "$(dirname "$0")"
f="$1"
h=$(python3-vt -c "import json,sys; d=json.load(open(sys.argv[1])); h=(d.get('input') or {}).get('harness','node_harness'); print('bounded_harness' if h=='df_enum' else h)" "$f")
if [ ! -f "replay/$h.py" ]; then
  echo "{\"ran\": false, \"note\": \"no replay harness for this obligation (no-failing-input-found): the file carries the failed obligation and the solver output\"}"
  exit 0
fi
python3-vt -c "import json,sys; d=json.load(open(sys.argv[1])); json.dump({'input': d.get('input'), 'clause': d.get('clause'), 'property': d.get('property'), 'repo': '/repo'}, sys.stdout)" "$f" | /venv/bin/python replay/$h.py
