#!/bin/sh
# ./replay.sh out/replay_<...>.json : re-run the recorded counter-model on the real code
cd "$(dirname "$0")"
f="$1"
h=$(python3-vt -c "import json,sys; d=json.load(open(sys.argv[1])); print((d.get('input') or {}).get('harness','node_harness'))" "$f")
python3-vt -c "import json,sys; d=json.load(open(sys.argv[1])); json.dump({'input': d.get('input'), 'clause': d.get('clause'), 'repo': '/repo'}, sys.stdout)" "$f" | /venv/bin/python replay/$h.py
