"""Replay / bounded check of the streaming dataframe aggregations against pandas on the REAL code (/venv/bin/python).

stdin : JSON {input: {agg, vector, batches: [[v|null,...],...], window: n|null}, clause, repo}
stdout: JSON {ran, clause_holds, observed, error}
Feeds the batches into the real streaming aggregation and compares every emitted value with the pandas aggregation over the
concatenated prefix (whenever the prefix / window has at least one row)."""
import json
import math
import sys
import traceback


def main():
    req = json.load(sys.stdin)
    sys.path.insert(0, req.get('repo', '/repo'))
    try:
        out = run(req['input'])
        out.setdefault('ran', True)
        out.setdefault('error', None)
    except Exception:
        out = {'ran': False, 'clause_holds': None, 'error': traceback.format_exc()[-2500:]}
    json.dump(out, sys.stdout, default=repr)


def close(a, b):
    if a is None or b is None:
        return a is b
    try:
        if math.isnan(a) and math.isnan(b):
            return True
    except TypeError:
        pass
    return abs(a - b) <= 1e-9 * max(1.0, abs(a), abs(b))


def run(inp):
    import warnings
    warnings.simplefilter('ignore')
    import numpy as np
    import pandas as pd
    from streamz import Stream
    from streamz.dataframe import DataFrame
    agg = inp['agg']
    window = inp.get('window')
    batches = [[np.nan if v is None else float(v) for v in b] for b in inp['batches']]
    src = Stream()
    sdf = DataFrame(src, example=pd.DataFrame({'x': [1.0]}))
    use_window = window is not None or agg in ('var', 'std')
    n = window if window is not None else 10 ** 6
    col = sdf.window(n=n).x if use_window else sdf.x
    L = getattr(col, agg)().stream.sink_to_list()
    seen = []
    observed = []
    start = 0
    for k, b in enumerate(batches):
        df = pd.DataFrame({'x': b}, index=range(start, start + len(b)), dtype=float)
        start += len(b)
        seen.extend(b)
        before = len(L)
        try:
            src.emit(df)
        except Exception as e:
            return {'clause_holds': False, 'observed': {'batches': inp['batches'], 'failed_at_batch': k,
                                                        'exception': '%s: %s' % (type(e).__name__, e)}}
        rows = seen[-n:]
        if len(L) > before and len(rows) >= 1:
            got = L[-1]
            want = getattr(pd.Series(rows, dtype=float), agg)()
            got = float(got) if not hasattr(got, 'item') else float(got.item()) if getattr(got, 'size', 1) == 1 else None
            observed.append({'batch': k, 'got': got, 'pandas': float(want)})
            if not close(got, float(want)):
                return {'clause_holds': False, 'observed': {'batches': inp['batches'], 'mismatch': observed[-1]}}
    return {'clause_holds': True, 'observed': {'batches': inp['batches'], 'values': observed}}


if __name__ == '__main__':
    main()
