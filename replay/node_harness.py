"""Replay of a counter-model against the REAL node code (run with /venv/bin/python).

stdin : JSON {input: <decoded counter-model>, clause: {...}, repo: path}
stdout: JSON {ran: bool, clause_holds: bool|None, observed: {...}, error: str|None}

The real class is instantiated, its fields are set to the pre-state of the
counter-model, a recording child is attached, the real method is called and
the violated clause (the same Python expression the verifier used) is
evaluated on the real objects.
"""
import ast
import copy
import json
import sys
import traceback
from collections import deque, defaultdict


class UserError(Exception):
    pass


class DownstreamError(Exception):
    pass


class H(str):
    """Result of a scripted (Herbrand) user function: opaque, hashable, with scripted truthiness."""
    _truthy = True
    _items = None

    def __bool__(self):
        return self._truthy

    def __iter__(self):
        if self._items is not None:
            return iter(self._items)
        return str.__iter__(self)

    def __getitem__(self, k):
        return H('getitem(%s,%s)' % (self, k))

    def __add__(self, o):
        return H('add(%s,%s)' % (self, o))


def mkH(name, truthy=True, items=None):
    h = H(name)
    h._truthy = truthy
    h._items = items
    return h


class Scripted:
    def __init__(self, name, script):
        self.name = name
        self.table = [e for e in script if e.get('kind') == 'opaque' and e['name'] == name]
        self.calls = []

    def __call__(self, *args, **kwargs):
        key = [str(a) for a in args]
        self.calls.append(key)
        for e in self.table:
            if e['args'][:len(key)] == key:
                if e['raised']:
                    raise UserError(self.name)
                return mkH(e['result'], e.get('truthy', True), e.get('items'))
        return mkH('%s(%s)' % (self.name, ','.join(key)))


def main():
    req = json.load(sys.stdin)
    sys.path.insert(0, req.get('repo', '/repo'))
    try:
        out = run(req)
    except Exception:
        out = {'ran': False, 'clause_holds': None, 'error': traceback.format_exc()[-3000:]}
    json.dump(out, sys.stdout, default=repr)


def run(req):
    import streamz
    from streamz import core, sinks
    from streamz.core import Stream, RefCounter
    inp = req['input']
    clause = req['clause']
    script = inp.get('script', [])

    class StubLoop:
        def __init__(self):
            self.callbacks = []

        def add_callback(self, cb, *a, **k):
            self.callbacks.append((cb, a, k))

        def call_later(self, *a, **k):
            self.callbacks.append(('later', a, k))
            return self

        def cancel(self):
            pass
    loop = StubLoop()

    objs = {}

    def obj(name):
        if name not in objs:
            objs[name] = Stream()
        return objs[name]

    rcs = {}

    def rc(name):
        if name not in rcs:
            rcs[name] = RefCounter(initial=1000, loop=loop)
        return rcs[name]

    r_holder = {}

    def mk_md(lst):
        out = []
        for m in lst:
            if m.get('has_ref'):
                c = rc(m['ref'])
                if m.get('is_r'):
                    r_holder['r'] = c
                out.append({'ref': c, 'id': m['id']})
            else:
                out.append({'id': m['id']})
        return out

    CONSTS = {'None': None, '--no-default--': core.no_default, 'True': True, 'False': False}

    def atom(name):
        if isinstance(name, str) and name.startswith('const:'):
            lab = name[6:]
            return CONSTS[lab] if lab in CONSTS else lab
        return name

    def conv(v, fname=None):
        if v is None or isinstance(v, (bool, int)):
            return v
        if isinstance(v, str):
            return atom(v)
        if isinstance(v, list):
            return [conv(x) for x in v]
        if 'str' in v:
            return v['str']
        if 'elem' in v:
            if fname == 'args':
                return ()
            if fname == 'kwargs':
                return {}
            return atom(v['elem'])
        if 'obj' in v:
            return obj(v['obj'])
        if 'callable' in v:
            return Scripted(v['callable'], script)
        if 'real' in v:
            x = v['real']
            return x if isinstance(x, int) else x[0] / x[1]
        if 'tuple' in v:
            return tuple(conv(x) for x in v['tuple'])
        if 'seq' in v:
            kind = v.get('kind')
            if kind == 'mde':
                items = mk_md(v['seq'])
            elif kind == 'seq[mde]':
                items = [mk_md(x) for x in v['seq']]
            elif kind == 'obj':
                items = [obj(x) for x in v['seq']]
            elif kind == 'pair':
                items = [(p['x'], mk_md(p['md'])) for p in v['seq']]
            else:
                items = [atom(i) for i in v['seq']]
            if v.get('pytype') == 'deque':
                return deque(items, maxlen=v.get('maxlen'))
            if v.get('pytype') == 'tuple':
                return tuple(items)
            return items
        if 'dict' in v:
            d = defaultdict(lambda: []) if v.get('default_empty') else {}
            for k, val in v['dict']:
                if v['vkind'] == 'mde' or v['vkind'] == 'seq[mde]' and False:
                    val = mk_md(val)
                elif v['vkind'] == 'seq[mde]':
                    val = mk_md(val)
                elif v['vkind'] == 'seq[elem]':
                    val = list(val)
                elif v['vkind'] == 'seq[pair]':
                    val = deque((p['x'], mk_md(p['md'])) for p in val)
                kk = obj(k) if v['kkind'] == 'obj' else k
                d[kk] = val
            return d
        if 'set' in v:
            return set(obj(x) if v.get('kkind') == 'obj' else x for x in v['set'])
        raise ValueError('cannot build %r' % (v,))

    mod = sinks if inp['class'] in ('sink',) else core
    cls = getattr(mod, inp['class'], None) or getattr(core, inp['class'])
    node = cls.__new__(cls)
    Stream.__init__(node)
    node.loop = loop
    who = obj(inp['who']) if inp.get('who') else None
    objs[inp.get('self_ref', '__self__')] = node
    for fname, v in inp['fields'].items():
        setattr(node, fname, conv(v, fname))
    for name, v in inp.get('extra', {}).get('objects', {}).items():
        pass
    metadata = mk_md(inp.get('metadata', []))
    r = r_holder.get('r')
    # counters reachable from buffers may also be r
    if r is None:
        r = RefCounter(initial=1000, loop=loop)
    x = atom(inp.get('x'))
    if inp.get('extra', {}).get('x_items') is not None:
        x = tuple(atom(i) for i in inp['extra']['x_items'])

    # recording child -------------------------------------------------------
    log = {'emitted': [], 'emitted_md': [], 'emit_rets': [], 'snaps': [], 'release_running': []}
    emit_raise_at = [e['index'] for e in script if e.get('kind') == 'emit_raise']

    class Rec(Stream):
        def update(self, x, who=None, metadata=None):
            k = len(log['emit_rets'])
            if k in emit_raise_at:
                raise DownstreamError()
            return ('aw', len(log['emitted']))
    child = Rec()
    node.downstreams.add(child)
    if hasattr(node, 'upstreams') and who is not None and not inp['fields'].get('upstreams'):
        node.upstreams = [who]
    for up in list(getattr(node, 'upstreams', [])):
        if isinstance(up, Stream):
            up.downstreams.add(node)
    data_fields = clause.get('data_fields', [])

    def snap_fields():
        return {f: copy.copy(getattr(node, f)) for f in data_fields if hasattr(node, f)}
    real_emit = node._emit

    def rec_emit(x, metadata=None):
        log['emitted'].append(x)
        log['emitted_md'].append(list(metadata) if metadata else [])
        log['snaps'].append(snap_fields())
        res = real_emit(x, metadata=metadata)
        log['emit_rets'].append(res)
        return res
    node._emit = rec_emit
    real_public_emit = node.emit

    def rec_public_emit(x, asynchronous=False, metadata=None):
        # a node calling the public emit: record like _emit, return what the real one returns
        node._emit = real_emit
        try:
            log['emitted'].append(x)
            log['emitted_md'].append(list(metadata) if metadata else [])
            log['snaps'].append(snap_fields())
            node.loop = None        # take the direct branch of emit (no sync(), no convert_yielded)
            res = real_public_emit(x, asynchronous=asynchronous, metadata=metadata)
            log['emit_rets'].append(res)
            return res
        finally:
            node.loop = loop
            node._emit = rec_emit
    node.emit = rec_public_emit
    count0 = r.count

    def occ(md):
        n = 0
        for m in md:
            if isinstance(m, dict):
                n += 1 if m.get('ref') is r else 0
            elif isinstance(m, (list, tuple, deque)):
                n += occ(m)
        return n

    def flat(mdl):
        return [m for ml in mdl for m in ml]

    env = {'self': node, 'x': x, 'metadata': metadata, 'who': who, 'occ': occ, 'flat': flat,
           'tup': tuple, 'implies': lambda a, b: (not a) or bool(b), 'iff': lambda a, b: bool(a) == bool(b),
           'fst': lambda p: p[0] if isinstance(p, tuple) else list(iter(p))[0],
           'snd': lambda p: p[1] if isinstance(p, tuple) else list(iter(p))[1],
           'elem': lambda v: v, 'no_default': core.no_default, 'pieces': lambda v: list(v), 'keys': lambda d: list(d.keys()), 'vals': lambda d: list(d.values()),
           'vals_over': lambda d, ks: [d[k] for k in ks], 'flat_aw': lambda ll: [a for l in ll for a in l],
           'all_empty': lambda mdl: all(len(m) == 0 for m in mdl),
           'len': len, 'list': list, 'deque': deque}
    for k, v in inp.get('extra', {}).get('ghost', {}).items():
        env[k] = conv(v)
    held_text = clause.get('held')
    kind = clause.get('kind', 'text')
    text = clause.get('text')

    # old(...) sub-expressions are evaluated on the pre-state
    olds = []
    tree = None
    texts = [t for t in [text, held_text] if t]

    class OldRewriter(ast.NodeTransformer):
        def visit_Call(self, n):
            if isinstance(n.func, ast.Name) and n.func.id == 'old':
                src = ast.unparse(n.args[0])
                env_pre = dict(env)
                env_pre.update({'emitted': [], 'emitted_md': [], 'emit_rets': [], 'delta': 0})
                val = copy.deepcopy(eval(src, env_pre)) if not _has_obj(src) else eval(src, env_pre)
                olds.append(val)
                return ast.Subscript(value=ast.Name(id='__old', ctx=ast.Load()),
                                     slice=ast.Constant(len(olds) - 1), ctx=ast.Load())
            self.generic_visit(n)
            return n

    def _has_obj(src):
        return False
    if text:
        tree = ast.fix_missing_locations(ast.Expression(OldRewriter().visit(ast.parse(text.strip(), mode='eval').body)))
    held_pre = eval(held_text, dict(env)) if held_text else 0
    pre_fields = snap_fields()
    pre_all = {f: copy.copy(getattr(node, f)) for f in clause.get('frame_fields', []) if hasattr(node, f)}

    real_release = node._release_refs

    def rec_release(md, n=1):
        real_release(md, n)
        log['release_running'].append(held_pre + (r.count - count0))
    node._release_refs = rec_release

    exc = None
    result = None
    method = getattr(node, inp.get('method', 'update'))
    target = getattr(method, '__wrapped__', None)
    try:
        if inp.get('method', 'update') == 'update':
            result = method(x, who=who, metadata=metadata)
        else:
            result = method()
    except (UserError, DownstreamError) as e:
        exc = type(e).__name__
    except Exception as e:
        exc = type(e).__name__
    env.update({'result': result, 'emitted': log['emitted'], 'emitted_md': log['emitted_md'],
                'emit_rets': log['emit_rets'], 'delta': r.count - count0, '__old': olds})
    for k, src in clause.get('ghost_exprs', {}).items():
        env[k] = eval(src, env)
    observed = {'result': repr(result), 'exception': exc, 'emitted': repr(log['emitted']),
                'emitted_md': repr(log['emitted_md']), 'delta': r.count - count0,
                'fields_after': {f: repr(getattr(node, f, None)) for f in inp['fields']},
                'release_running': log['release_running']}
    when = clause.get('when', 'return')
    applicable = (when == 'any' or (when == 'return' and exc is None)
                  or (when.startswith('raise') and exc is not None and (':' not in when or when.split(':')[1] == exc)))
    holds = None
    if not applicable:
        observed['note'] = 'outcome of the real run (%s) differs from the path of the counter-model (%s)' % (exc or 'return', when)
        # for an expected-exception clause the missing/wrong exception itself is the breach
        if kind == 'same_exception':
            holds = False
    elif kind == 'text':
        holds = bool(eval(compile(tree, '<clause>', 'eval'), env))
    elif kind == 'balance':
        held_post = eval(held_text, env) if held_text else 0
        observed['held_pre'], observed['held_post'] = held_pre, held_post
        holds = (r.count - count0) == held_post - held_pre
    elif kind == 'frame':
        holds = all(getattr(node, f) == pre_all[f] for f in pre_all)
    elif kind == 'reentrancy':
        final = snap_fields()
        holds = all(s == final for s in log['snaps'])
        observed['state_at_emits'] = repr(log['snaps'])
    elif kind == 'same_exception':
        holds = exc == clause.get('exc')
    elif kind == 'release_only_what_is_held':
        holds = all(v >= 0 for v in log['release_running'])
    elif kind == 'metadata_shape':
        holds = all(all(isinstance(m, dict) for m in md) for md in log['emitted_md'])
    return {'ran': True, 'clause_holds': holds, 'observed': observed, 'error': None}


if __name__ == '__main__':
    main()
