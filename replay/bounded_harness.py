"""Re-run one recorded failure of a BOUNDED stand-in on the real code (run with /venv/bin/python).
stdin : JSON {input: <failure record written by the check>, property: Cxx, repo: path}
stdout: JSON {ran, clause_holds, observed}"""
import json
import os
import sys

HERE = os.path.dirname(os.path.dirname(os.path.abspath(__file__)))


def main():
    req = json.load(sys.stdin)
    repo = req.get('repo', '/repo')
    sys.path.insert(0, repo)
    sys.path.insert(0, os.path.join(HERE, 'bounded'))
    inp = req.get('input') or {}
    pid = req.get('property')
    op = inp.get('op', '')
    out = {'ran': False, 'clause_holds': None, 'observed': None}
    if 'batch_sizes' in inp:
        import df_enum
        xs = [float('nan') if v is None else v for v in inp['x']]
        for p in ([pid] if pid else []) + ['C06', 'C07', 'C11', 'C12']:
            for o in df_enum.ops_for(p):
                if o['name'] == op:
                    if o['kind'] == 'resume':
                        bad = df_enum.run_resume_case(o, xs, inp['k'], inp['batch_sizes'])
                    else:
                        bad = df_enum.run_case(o, xs, inp['k'], inp['batch_sizes'], {})
                    out = {'ran': True, 'clause_holds': bad is None, 'observed': bad}
                    json.dump(out, sys.stdout, default=repr)
                    return
    else:
        import pure_enum
        table = {'zip.pack_literals': lambda: pure_enum.check_pack_literals(8), 'zip with literals (end to end)': lambda: pure_enum.check_pack_literals(8),
                 'convert_interval': pure_enum.check_convert_interval, 'filenames._run': pure_enum.check_filenames,
                 'flatten.update': pure_enum.check_flatten}
        if op in table:
            c, failures, _ = table[op]()
            mine = [f for f in failures if f.get('op') == op]
            out = {'ran': True, 'clause_holds': not mine, 'observed': mine[:1]}
    json.dump(out, sys.stdout, default=repr)


if __name__ == '__main__':
    main()
