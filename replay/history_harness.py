"""Replays of protocol-level counter-models: fixed, deterministic histories run against the REAL classes
(run with /venv/bin/python).  Each scenario is the call/stepping sequence that reaches the pre-state of the
counter-model ("reach recipe", DESIGN 2.4) followed by the failing segment, and a judgement of the violated clause
on the real objects.  No timing is involved: coroutines are stepped by hand with .send(None).

stdin : JSON {input: {scenario: name, ...}, clause: {...}, repo: path}
stdout: JSON {ran, clause_holds, observed, error}"""
import json
import sys
import traceback


def main():
    req = json.load(sys.stdin)
    sys.path.insert(0, req.get('repo', '/repo'))
    name = (req.get('input') or {}).get('scenario') or (req.get('clause') or {}).get('scenario')
    try:
        fn = SCENARIOS[name]
        out = fn(req)
        out.setdefault('ran', True)
        out.setdefault('error', None)
    except Exception:
        out = {'ran': False, 'clause_holds': None, 'error': traceback.format_exc()[-3000:]}
    json.dump(out, sys.stdout, default=repr)


class StubAsyncioLoop:
    def __init__(self):
        self.tasks = []

    def create_task(self, coro):
        self.tasks.append(coro)
        return coro


class StubLoop:
    def __init__(self):
        self.callbacks = []
        self.asyncio_loop = StubAsyncioLoop()

    def add_callback(self, cb, *a, **k):
        self.callbacks.append((cb, a, k))

    def call_later(self, *a, **k):
        self.callbacks.append(('later', a, k))
        return self


def step(coro):
    """advance a coroutine to its next suspension; returns ('yield', value) or ('done', result)"""
    try:
        return ('yield', coro.send(None))
    except StopIteration as e:
        return ('done', e.value)


class Pending:
    """an awaitable that never completes by itself (a mapped coroutine still running)"""
    def __init__(self, name):
        self.name = name

    def __await__(self):
        yield self
        return self.name


def _map_async_node(parallelism):
    from streamz import Stream
    from streamz.core import map_async
    created = []

    async def func(x):
        created.append(x)
        await Pending(x)
        return x
    node = map_async.__new__(map_async)
    Stream.__init__(node)
    import asyncio
    node.func = func
    node.args = ()
    node.kwargs = {}
    node.stop_on_exception = False
    node.work_queue = asyncio.Queue(maxsize=parallelism)
    node.work_task = ('stop', 'task')
    node.loop = StubLoop()
    return node, created


def map_async_overtake(req):
    """F9: job A waits for a slot; the slot is freed; job B (arrived later) takes it first."""
    node, created = _map_async_node(1)
    first = node._insert_job('job0', [])
    assert step(first)[0] == 'done'                 # queue now full (1/1)
    a = node._insert_job('A', [])
    ra = step(a)                                    # A spins on sleep(0): queue full
    node.work_queue.get_nowait()                    # the worker takes job0: a slot is free
    b = node._insert_job('B', [])
    rb = step(b)                                    # B arrives now and finds the slot free
    ra2 = step(a)                                   # A is scheduled afterwards: full again
    queued = []
    while not node.work_queue.empty():
        t, md = node.work_queue.get_nowait()
        queued.append(t)
    order = [x for x in created if x in ('A', 'B')]
    # what entered the queue, in order, against arrival order A, B
    names = ['B' if (rb[0] == 'done') else '?']
    holds = not (rb[0] == 'done' and ra2[0] == 'yield')
    return {'clause_holds': holds,
            'observed': {'A_after_first_step': ra[0], 'B_after_first_step': rb[0], 'A_after_second_step': ra2[0],
                         'jobs_in_queue': len(queued), 'arrival_order': ['A', 'B'], 'entered_queue_first': 'B' if not holds else 'A'}}


def map_async_bound(req):
    """F10: with parallelism=1 two mapped coroutines exist at the same time (one awaited by the worker, one queued)."""
    node, created = _map_async_node(1)
    j1 = node._insert_job('one', [])
    assert step(j1)[0] == 'done'
    import asyncio
    stop = asyncio.Event()
    worker = node.work_callback(stop)
    # the worker takes job 'one' from the queue and awaits it
    r = step(worker)
    tasks = node.loop.asyncio_loop.tasks
    # drive the mapped coroutine of job one to its first suspension (it is now running, unfinished)
    running = 0
    for t in tasks:
        try:
            t.send(None)
            running += 1
        except StopIteration:
            pass
        except RuntimeError:
            running += 1
    j2 = node._insert_job('two', [])
    r2 = step(j2)
    tasks2 = node.loop.asyncio_loop.tasks
    unfinished = len(tasks2)
    holds = unfinished <= 1
    return {'clause_holds': holds, 'observed': {'parallelism': 1, 'mapped_coroutines_created_and_unfinished': unfinished,
                                                 'second_job_inserted': r2[0], 'worker_state': r[0]}}


def zip_remove_upstream_stuck(req):
    """F14a: a.zip(b); a.emit(1); b.disconnect(z); a.emit(2) -> the node over [a] never emits again."""
    from streamz import Stream
    a, b = Stream(), Stream()
    z = a.zip(b)
    L = z.sink_to_list()
    a.emit(1)
    b.disconnect(z)
    a.emit(2)
    fresh_a = Stream()
    fz = fresh_a.zip()
    FL = fz.sink_to_list()
    fresh_a.emit(1)
    fresh_a.emit(2)
    some_empty = any(len(buf) == 0 for buf in z.buffers.values())
    holds = (len(z.upstreams) == 0) or some_empty
    return {'clause_holds': holds, 'observed': {'delivered_after_edit': L, 'fresh_zip_over_current_inputs_delivers': FL,
                                                 'buffers': {str(k): list(v) for k, v in z.buffers.items()}}}


def source_restart_two_loops(req):
    """F15: start(); the run() coroutine is suspended inside a cycle; stop(); start() -> two live polling loops."""
    from streamz import Stream
    from streamz.sources import from_iterable
    src = from_iterable.__new__(from_iterable)
    Stream.__init__(src)
    src.loop = StubLoop()
    src._iterable = [0, 1, 2, 3]
    src.stopped = True
    src.started = False

    class Slow(Stream):
        def update(self, x, who=None, metadata=None):
            seen.append(x)
            return [Pending(x)]
    seen = []
    sink = Slow()
    src.downstreams.add(sink)
    src.start()
    runs = [cb for cb, a, k in src.loop.callbacks]
    c1 = runs[0]()
    step(c1)                      # emits item 0 and suspends awaiting downstream
    src.stop()
    src.start()
    runs = [cb for cb, a, k in src.loop.callbacks]
    live = 1 + (len(runs) - 1)    # the suspended first loop + newly scheduled ones
    c2 = runs[1]()
    step(c2)                      # the second loop starts from the beginning of the iterable
    holds = live <= 1
    return {'clause_holds': holds, 'observed': {'live_polling_loops': live, 'items_emitted': seen}}


def periodic_restart_two_loops(req):
    """F25: PeriodicDataFrame.start(); the polling coroutine is suspended in its sleep; stop(); start() -> the old coroutine finds
    its flag cell set again and keeps polling next to the new one."""
    import pandas as pd
    from streamz.dataframe import PeriodicDataFrame
    calls = []

    def datafn(last=None, now=None, **kwargs):
        calls.append(1)
        return pd.DataFrame({'x': [1]})
    pdf = PeriodicDataFrame(datafn=datafn, interval='0ms', start=False)
    pdf.loop = StubLoop()
    pdf.start()
    cb, a, k = pdf.loop.callbacks[0]
    c1 = cb(*a, **k)
    s1 = step(c1)                 # suspended in the sleep of its first cycle
    pdf.stop()
    pdf.start()
    new = pdf.loop.callbacks[1:]
    coros = [c1] + [cb2(*a2, **k2) for cb2, a2, k2 in new]
    alive = []
    for c in coros:
        st = None
        for _ in range(6):        # let each coroutine run through a few cycles
            st = step(c)
            if st[0] == 'done':
                break
        alive.append(st[0] != 'done')
    live = sum(alive)
    pdf.stop()
    for c in coros:
        c.close()
    return {'clause_holds': live <= 1, 'observed': {'polling_loops_still_cycling_after_stop_start': live,
                                                    'loops_scheduled_by_second_start': len(new), 'first_step': repr(s1)}}


def kafka_reset_after_failed_watermark(req):
    """F17: configured auto.offset.reset=latest, no committed offset, the first watermark query of the partition fails:
    after the first pass the reset is flipped to earliest and the partition starts from the low watermark."""
    import types
    fake = types.ModuleType('confluent_kafka')

    class KafkaException(Exception):
        pass

    class TopicPartition:
        def __init__(self, topic, partition=-1, offset=-1001):
            self.topic, self.partition, self.offset = topic, partition, offset
    state = {'wm_calls': 0}

    class Consumer:
        def __init__(self, params):
            self.params = params

        def committed(self, tps, timeout=None):
            return [TopicPartition(tp.topic, tp.partition, -1001) for tp in tps]

        def get_watermark_offsets(self, tp, timeout=None):
            state['wm_calls'] += 1
            if state['wm_calls'] == 1:
                raise KafkaException('transient')
            return (3, 10)

        def list_topics(self, topic):
            raise AssertionError
    fake.KafkaException, fake.TopicPartition, fake.Consumer = KafkaException, TopicPartition, Consumer
    sys.modules['confluent_kafka'] = fake
    from streamz import Stream
    from streamz.sources import FromKafkaBatched
    src = FromKafkaBatched.__new__(FromKafkaBatched)
    Stream.__init__(src)
    params = {'auto.offset.reset': 'latest', 'group.id': 'g'}
    src.consumer_params = params
    src.consumer_params['enable.auto.commit'] = 'false'
    src.topic, src.npartitions, src.refresh_partitions = 't', 1, False
    src.poll_interval, src.max_batch_size, src.keys, src.engine = 0.0, 100, False, None
    src.started, src.stopped = False, False
    src.loop = StubLoop()
    src.consumer = Consumer(params)
    gen_fn = FromKafkaBatched.poll_kafka.__wrapped__
    g = gen_fn(src)
    batches = []
    try:
        for _ in range(6):
            g.send(None)
            for cb, a, k in src.loop.callbacks:
                if a:
                    batches.append(a[0])
            src.loop.callbacks = []
            if batches:
                break
    except StopIteration:
        pass
    first = batches[0] if batches else None
    # configured reset position for a partition without committed offset: latest = high watermark (10): nothing to read yet
    holds = first is None or first[4] >= 10
    return {'clause_holds': holds, 'observed': {'configured_reset': 'latest', 'low': 3, 'high': 10,
                                                 'first_batch': None if first is None else list(first[2:]),
                                                 'reset_now': src.consumer_params.get('auto.offset.reset')}}


def latest_lost_wakeup(req):
    """an arrival while the forwarder is busy must still be delivered once the consumer is free"""
    from streamz import Stream
    from streamz.core import latest
    src = Stream()
    node = latest.__new__(latest)
    node._condition = None
    node.next = []
    node.next_metadata = None
    Stream.__init__(node, src)
    node.loop = StubLoop()
    delivered = []

    class Slow(Stream):
        def update(self, x, who=None, metadata=None):
            delivered.append(x)
            return [Pending(x)]
    slow = Slow()
    node.downstreams.add(slow)
    cb = latest.cb.__wrapped__(node)
    waiting = [cb.send(None)]              # blocked in condition.wait()
    node.update(1, metadata=[])
    for f, a, k in list(node.loop.callbacks):
        f(*a)
    node.loop.callbacks = []
    # the wait future is done now: resume the coroutine, it delivers 1 and awaits downstream
    cb.send(None)
    node.update(2, metadata=[])            # arrival while busy
    for f, a, k in list(node.loop.callbacks):
        f(*a)                              # the notify finds no waiter
    node.loop.callbacks = []
    try:
        cb.send([])                        # downstream finished: the coroutine goes on
    except StopIteration:
        pass
    holds = delivered == [1, 2]
    return {'clause_holds': holds, 'observed': {'delivered': delivered, 'slot': list(node.next)}}


def timed_window_awaitables_shared(req):
    """F28: every arrival at timed_window is handed the awaitables of the last tick's emission (update returns self.last), and the
    forwarder awaits them too.  With a consumer that returns a bare coroutine object (async def) the second await raises
    RuntimeError('cannot reuse already awaited coroutine') in an emitter that did nothing wrong."""
    import asyncio
    from streamz import Stream
    cls = (req.get('clause') or {}).get('cls') or 'timed_window'

    async def main():
        s = Stream(asynchronous=True)
        got, errors = [], []

        async def consumer(batch):
            await asyncio.sleep(0.005)
            got.append(batch)
        node = s.timed_window(0.03) if cls == 'timed_window' else s.timed_window_unique(0.03, key=lambda x: x)
        node.sink(consumer)
        for i in range(6):
            try:
                await s.emit(i)
            except Exception as e:
                errors.append(repr(e))
            await asyncio.sleep(0.02)
        await asyncio.sleep(0.1)
        return got, errors
    got, errors = asyncio.run(main())
    return {'clause_holds': not errors, 'observed': {'emits_that_raised': len(errors), 'first_error': errors[:1],
                                                     'delivered_batches': repr(got)[:200]}}


def tcp_handler_does_not_await(req):
    """F29: the per-connection coroutine of from_tcp reads the next record without waiting for the consumers of the previous one
    (it tests isawaitable() on the LIST _emit returns): with a slow asynchronous consumer several records are in flight at once."""
    import asyncio
    import socket
    from streamz import Stream

    async def main():
        sock = socket.socket()
        sock.bind(('127.0.0.1', 0))
        port = sock.getsockname()[1]
        sock.close()
        src = Stream.from_tcp(port, asynchronous=True)
        running, peak, done = [0], [0], []

        async def consumer(x):
            running[0] += 1
            peak[0] = max(peak[0], running[0])
            await asyncio.sleep(0.05)
            running[0] -= 1
            done.append(x)
        src.sink(consumer)
        src.start()
        await asyncio.sleep(0.05)
        reader, writer = await asyncio.open_connection('127.0.0.1', port)
        writer.write(b'a\nb\nc\nd\n')
        await writer.drain()
        await asyncio.sleep(0.6)
        writer.close()
        src.stop()
        return peak[0], done
    peak, done = asyncio.run(main())
    return {'clause_holds': peak <= 1 and len(done) == 4, 'observed': {'records_inside_the_consumer_at_once': peak, 'delivered': repr(done)}}


SCENARIOS = {'timed_window_awaitables_shared': timed_window_awaitables_shared, 'tcp_handler_does_not_await': tcp_handler_does_not_await,
             'map_async_overtake': map_async_overtake, 'map_async_bound': map_async_bound,
             'zip_remove_upstream_stuck': zip_remove_upstream_stuck, 'source_restart_two_loops': source_restart_two_loops,
             'periodic_restart_two_loops': periodic_restart_two_loops,
             'kafka_reset_after_failed_watermark': kafka_reset_after_failed_watermark,
             'latest_lost_wakeup': latest_lost_wakeup}

if __name__ == '__main__':
    main()
